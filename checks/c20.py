"""C20 — typed values format and parse consistently; numeric interpretation is exact.

Coq: Properties/C20.v (theorems about the model Value/CharData.v of chardata.rs, against the independent
reading Value/ValueSpec.v).  Tie: correspondence of the hand-written model with the real library (harness
`avh values`, built with the verification hooks because CharacterData::{parse,check_value,serialize_internal}
are pub(crate)) on a generated stream, evaluated inside Coq by vm_compute; the enum-name, specification and
regex tables the model runs on are regenerated from the source by the translator.  Direct property oracle:
exact integer arithmetic done by the harness itself."""
import os, json, re
import lib
from lib import Ctx, WORK, VERIF

TYPES = ["u8", "u16", "u32", "u64", "u128", "usize", "i8", "i16", "i32", "i64", "i128", "isize"]
TYPES_COQ = "[(false,8);(false,16);(false,32);(false,64);(false,128);(false,64);(true,8);(true,16);(true,32);(true,64);(true,128);(true,64)]"

PRELUDE = """From AV Require Import Base.Bytes Base.Outcome Hash.HashModel Hash.HashRealEnum Spec.SpecTypes Value.Num Value.CharData.
From AV Require Import Regex.Regex Regex.Bisim Regex.Vexpr.
From AV.Gen Require Import SpecTables RegexData.
From Coq Require Import ZArith.
Open Scope N_scope.
Set Printing Depth 10000000.
Set Printing Width 1000.
Definition oz (o : option Z) : list Z := match o with Some z => [1%Z; z] | None => [0%Z; 0%Z] end.
Definition on (o : option N) : list Z := match o with Some n => [1%Z; Z.of_N n] | None => [0%Z; 0%Z] end.
Definition ob3 (o : option bool) : list Z := [match o with Some true => 1%Z | Some false => 0%Z | None => 2%Z end].
Definition el (l : list N) : list Z := Z.of_nat (List.length l) :: map Z.of_N l.
Definition erl (r : res (list N)) : list Z := match r with Val l => 1%Z :: el l | _ => [9%Z] end.
Definition ecd (d : cdata) : list Z :=
  match d with DEnum i => [1%Z; Z.of_N i] | DString s => 2%Z :: el s | DUInt n => [3%Z; Z.of_N n] | DFloat b => [4%Z; Z.of_N b] end.
Definition eocd (r : res (option cdata)) : list Z := match r with Val (Some d) => ecd d | Val None => [0%Z] | _ => [9%Z] end.
Definition erb (r : res bool) : list Z := [match r with Val true => 1%Z | Val false => 0%Z | _ => 9%Z end].
Definition TYPES : list (bool * N) := @@TYPES@@.
Definition pi (d : cdata) : list Z := flat_map (fun sb => oz (parse_integer (fst sb) (snd sb) d)) TYPES.
Definition pf (std : option N) (d : cdata) : list Z := on (parse_float (fun _ => std) d).
Definition pb (d : cdata) : list Z := ob3 (parse_bool d).
Definition ppp (std : option N) (t : list N) : list Z := pi (DString t) ++ pf std (DString t) ++ pb (DString t).
Definition ovb (o : option bool) : res bool := match o with Some b => Val b | None => Pan "validator" end.
@@VALIDATE@@
Definition SP (i : N) : cdspec := nth (N.to_nat i) t_cdata CUInt.
Definition ts (stdfmt : list N) (d : cdata) : list Z :=
  erl (display (fun _ => stdfmt) tab_enum d) ++ erl (serialize_internal (fun _ => stdfmt) tab_enum d).
Definition prs (std : option N) (sp : N) (ver : N) (t : list N) : list Z :=
  eocd (parse (fun _ => std) tab_enum validate t (SP sp) ver).
Definition chk (sp : N) (ver : N) (v : cdata) : list Z := erb (check_value validate v (SP sp) ver).
Definition rt (stdfmt : list N) (stdparse : option N) (sp : N) (ver : N) (v : cdata) : list Z :=
  match check_value validate v (SP sp) ver with
  | Val true =>
      match display (fun _ => stdfmt) tab_enum v with
      | Val t => eocd (parse (fun _ => stdparse) tab_enum validate t (SP sp) ver)
      | _ => [9%Z]
      end
  | Val false => [7%Z]
  | _ => [9%Z]
  end.
Definition pcr (sp : N) (ver : N) (t : list N) : list Z :=
  prs None sp ver t ++ chk sp ver (DString t) ++ rt [] None sp ver (DString t).
"""


def coq_bytes(b):
    """a byte string as a Coq term of type list N; a string literal elaborates about twice as fast as a list of numerals"""
    b = bytes(b)
    try:
        t = b.decode("utf-8")
        if b and "\r" not in t and "\0" not in t and t.encode("utf-8") == b:
            return '(BS "%s")' % t.replace('"', '""')
    except UnicodeDecodeError:
        pass
    return "[" + ";".join(str(x) for x in b) + "]"


def coq_optN(s):
    """'-' or 16 hex digits"""
    return "None" if s in ("-", "PANIC") else "(Some %d)" % int(s, 16)


def coq_value(v):
    k, r = v[:2], v[2:]
    if k == "E:":
        return "(DEnum %d)" % int(r)
    if k == "S:":
        return "(DString %s)" % coq_bytes(bytes.fromhex(r))
    if k == "U:":
        return "(DUInt %d)" % int(r)
    return "(DFloat %d)" % int(r, 16)


def kv(rest, key):
    m = re.search(r"(?:^| )%s=(\S*)" % key, rest)
    return m.group(1) if m else None


class Dec:
    """sequential decoder of one model result (list of ints)"""

    def __init__(self, xs):
        self.xs, self.i = xs, 0

    def take(self):
        v = self.xs[self.i]
        self.i += 1
        return v

    def bytes_(self):
        n = self.take()
        b = bytes(self.take() for _ in range(n))
        return b

    def rlist(self):
        t = self.take()
        if t != 1:
            return "PANIC"
        return self.bytes_().hex()

    def ocd(self):
        t = self.take()
        if t == 0:
            return "-"
        if t == 9:
            return "PANIC"
        if t == 7:
            return "skip"
        if t == 1:
            return "E:%d" % self.take()
        if t == 2:
            return "S:%s" % self.bytes_().hex()
        if t == 3:
            return "U:%d" % self.take()
        return "F:%016x" % self.take()


def to_coq(case, rest, spec_map):
    """(coq term : list Z, renderer(ints) -> canonical result string comparable with impl_norm)"""
    f = case.split(" ")
    k = f[0]
    if k in ("PI", "PF", "PB"):
        d = "(DString %s)" % coq_bytes(bytes.fromhex(f[1] if len(f) > 1 else ""))
    elif k in ("PIU", "PFU", "PBU"):
        d = "(DUInt %s)" % f[1]
    elif k in ("PIF", "PFF"):
        d = "(DFloat %d)" % int(f[1], 16)
    elif k in ("PIE", "PFE"):
        d = "(DEnum %s)" % f[1]
    if k in ("PI", "PIU", "PIF", "PIE"):
        def r(xs):
            return " ".join("%s:%s" % (t, xs[2 * i + 1] if xs[2 * i] == 1 else "-") for i, t in enumerate(TYPES))
        return "pi %s" % d, r
    if k in ("PF", "PFU", "PFF", "PFE"):
        std = coq_optN(kv(rest, "std")) if k == "PF" else "None"
        return "pf %s %s" % (std, d), (lambda xs: "%016x" % xs[1] if xs[0] == 1 else "-")
    if k in ("PB", "PBU"):
        return "pb %s" % d, (lambda xs: {0: "F", 1: "T", 2: "-"}[xs[0]] if k == "PB" else {0: "false", 1: "true", 2: "-"}[xs[0]])
    if k == "TS":
        std = kv(rest, "std")
        stdb = coq_bytes(bytes.fromhex(std)) if f[1].startswith("F:") else "[]"

        def r(xs):
            d_ = Dec(xs)
            a = d_.rlist()
            b = d_.rlist()
            return "%s ser=%s" % (a, b)
        return "ts %s %s" % (stdb, coq_value(f[1])), r
    sp = spec_map[int(f[1])]
    ver = int(f[2])
    if k == "PARSE":
        std = kv(rest, "std")
        t = coq_bytes(bytes.fromhex(f[3] if len(f) > 3 else ""))
        return "prs %s %d %d %s" % (coq_optN(std) if std is not None else "None", sp, ver, t), (lambda xs: Dec(xs).ocd())
    if k == "CHK":
        return "chk %d %d %s" % (sp, ver, coq_value(f[3])), (lambda xs: {0: "0", 1: "1", 9: "PANIC"}[xs[0]])
    if k == "RT":
        sf, spp = kv(rest, "stdfmt"), kv(rest, "stdparse")
        return "rt %s %s %d %d %s" % (coq_bytes(bytes.fromhex(sf)) if sf is not None else "[]",
                                      coq_optN(spp) if spp is not None else "None", sp, ver, coq_value(f[3])), (lambda xs: Dec(xs).ocd())
    raise ValueError("unknown case kind " + k)


def impl_norm(case, rest):
    """the part of the implementation's result line that the model has to reproduce"""
    k = case.split(" ")[0]
    if k in ("PF", "PARSE", "RT"):
        return rest.split(" ")[0]
    if k == "TS":
        m = re.match(r"^(\S*) ser=(\S*) std=", rest)
        return "%s ser=%s" % (m.group(1), m.group(2)) if m else rest
    return rest


def validate_def(kinds):
    o = "Definition validate (n : N) (s : list N) : res bool :=\n  match n with\n"
    for n in sorted(kinds):
        if kinds[n] == "dfa":
            o += "  | %d => ovb (dfa_run tbl_%d acc_%d s)\n" % (n, n, n)
        else:
            o += "  | %d => ovb (veval v_%d s)\n" % (n, n)
    o += '  | _ => Pan "no such validator"\n  end.\n'
    return o


def make_jobs(items, spec_map):
    """group observations that share their (expensive to elaborate) text literal into one Coq term.
    a job = (coq term : list Z, [(item index, decoder(Dec) -> canonical string)])"""
    jobs = []
    by_text = {}      # hex text -> {kind: item index}   for PI / PF / PB
    by_triple = {}    # (spec, ver, S:hex) -> {kind: item index}   for PARSE / CHK / RT on strings
    for i, (case, rest) in enumerate(items):
        f = case.split(" ")
        if f[0] in ("PI", "PF", "PB"):
            by_text.setdefault(f[1] if len(f) > 1 else "", {})[f[0]] = i
        elif f[0] == "PARSE" and "std=" not in rest:
            by_triple.setdefault((f[1], f[2], f[3] if len(f) > 3 else ""), {})["PARSE"] = i
        elif f[0] in ("CHK", "RT") and f[3].startswith("S:"):
            by_triple.setdefault((f[1], f[2], f[3][2:]), {})[f[0]] = i
    done = set()

    def pi_r(d):
        xs = [d.take() for _ in range(24)]
        return " ".join("%s:%s" % (t, xs[2 * j + 1] if xs[2 * j] == 1 else "-") for j, t in enumerate(TYPES))

    def pf_r(d):
        fl, v = d.take(), d.take()
        return "%016x" % v if fl == 1 else "-"

    def pb_r(d):
        return {0: "F", 1: "T", 2: "-"}[d.take()]

    for hx, ks in by_text.items():
        if len(ks) < 2:
            continue
        std = "None"
        if "PF" in ks:
            std = coq_optN(kv(items[ks["PF"]][1], "std"))
        term = "ppp %s %s" % (std, coq_bytes(bytes.fromhex(hx)))
        outs = []
        for kname, dec in (("PI", pi_r), ("PF", pf_r), ("PB", pb_r)):
            outs.append((ks.get(kname), dec))
        jobs.append((term, outs))
        done.update(ks.values())
    for (sp, ver, hx), ks in by_triple.items():
        if len(ks) < 2:
            continue
        term = "pcr %d %s %s" % (spec_map[int(sp)], ver, coq_bytes(bytes.fromhex(hx)))
        outs = [(ks.get("PARSE"), lambda d: d.ocd()),
                (ks.get("CHK"), lambda d: {0: "0", 1: "1", 9: "PANIC"}[d.take()]),
                (ks.get("RT"), lambda d: d.ocd())]
        jobs.append((term, outs))
        done.update(ks.values())
    for i, (case, rest) in enumerate(items):
        if i in done:
            continue
        term, rend = to_coq(case, rest, spec_map)
        jobs.append((term, [(i, (lambda d, rend=rend: rend(d.xs)))]))
    return jobs


def model_eval(ctx, kinds, items, spec_map, shards=14, chunk=400):
    """items: list of (case, rest). returns list of model result strings (same order) or (None, err)"""
    import concurrent.futures as cf
    prelude = PRELUDE.replace("@@TYPES@@", TYPES_COQ).replace("@@VALIDATE@@", validate_def(kinds))
    jobs = make_jobs(items, spec_map)
    groups = [list(range(k, len(jobs), shards)) for k in range(shards)]

    def one(k, idxs):
        if not idxs:
            return {}
        t = prelude
        for c in range(0, len(idxs), chunk):
            part = idxs[c:c + chunk]
            t += "Eval vm_compute in [%s].\n" % ";\n ".join(jobs[j][0] for j in part)
        rc, out, dt = lib.coq_eval("c20_cases_%d" % k, t, timeout=1500)
        if rc != 0:
            return {"error": out[-1500:]}
        lists = re.findall(r"\[([-0-9;%Z()\s]*)\]", out)
        if len(lists) != len(idxs):
            return {"error": "shard %d: %d results for %d terms\n%s" % (k, len(lists), len(idxs), out[-600:])}
        r = {}
        for j, l in zip(idxs, lists):
            xs = [int(x) for x in re.findall(r"-?\d+", l)]
            d = Dec(xs)
            for (i, dec) in jobs[j][1]:
                try:
                    v = dec(d)
                except Exception as ex:
                    v = "DECODE-ERROR %r %r" % (ex, xs[:20])
                if i is not None:
                    r[i] = v
        return r

    res = {}
    with cf.ThreadPoolExecutor(max_workers=shards) as ex:
        futs = [ex.submit(one, k, g) for k, g in enumerate(groups)]
        for fu in futs:
            r = fu.result()
            if "error" in r:
                return None, r["error"]
            res.update(r)
    return [res[i] for i in range(len(items))], ""


def spec_summaries(cdata, names_enum=None):
    out = []
    for c in cdata:
        if c[0] == "enum":
            out.append("E:" + ",".join("%d:%d" % p for p in c[1]))
        elif c[0] == "pattern":
            out.append("P:%s:%s" % ("-" if c[3] is None else c[3], c[2]))
        elif c[0] == "string":
            out.append("S:%d:%s" % (1 if c[1] else 0, "-" if c[2] is None else c[2]))
        elif c[0] == "uint":
            out.append("U")
        else:
            out.append("F")
    return out


def text_of(hx):
    return bytes.fromhex(hx).decode("utf-8", "replace")


def prefixed_value(t):
    """value of 0[xX]hex+ | 0[bB]bin+ | 0oct+ ; None for every other text"""
    m = re.fullmatch(r"0[xX]([0-9a-fA-F]+)", t)
    if m:
        return int(m.group(1), 16)
    m = re.fullmatch(r"0[bB]([01]+)", t)
    if m:
        return int(m.group(1), 2)
    m = re.fullmatch(r"0([0-7]+)", t)
    if m:
        return int(m.group(1), 8)
    return None


def known_class(fail_line):
    """key of the known-finding class an ORACLE-FAIL line belongs to (narrow), or None"""
    f = fail_line.split(" ")
    if len(f) >= 4 and f[1] == "float-prefixed" and f[2] == "PF":
        v = prefixed_value(text_of(f[3]))
        if v is not None and v >= 2 ** 64:
            return "float-prefixed-ge-2^64"
    return None


def parse_lines(out):
    specs, items, fails, stats = {}, [], [], []
    hook = None
    for l in out.split("\n"):
        if l.startswith("SPEC "):
            _, i, summ = l.split(" ", 2)
            specs[int(i)] = summ
        elif l.startswith("HOOK "):
            hook = l.split()[1] == "1"
        elif l.startswith("ORACLE-FAIL "):
            fails.append(l)
        elif l.startswith("STAT "):
            stats.append(l)
        elif " => " in l:
            case, rest = l.split(" => ", 1)
            items.append((case, rest))
    return hook, specs, items, fails, stats


def correspondence(ctx, label, kinds, spec_map, items):
    """returns list of (case, impl, model) differences, or None when the model could not be evaluated"""
    usable = [(c, r) for (c, r) in items if not r.startswith("NOMODEL") and r not in ("NOHOOK", "NOT-UTF8", "BAD-VALUE", "BAD-SPEC", "BAD-VERSION", "NO-SUCH-ITEM", "UNKNOWN-CASE")]
    res, err = model_eval(ctx, kinds, usable, spec_map)
    if res is None:
        ctx.oblige("correspondence:%s(model evaluation)" % label, False, err)
        return None
    diff = [(c, impl_norm(c, r), m) for ((c, r), m) in zip(usable, res) if impl_norm(c, r) != m]
    return usable, res, diff


def run(tier, seed, replay_cases=None):
    ctx = Ctx("C20", tier, seed)
    dump = os.path.join(WORK, "dump")
    import names, spec, regexes
    info = {}

    def t_names():
        info["names"] = names.translate_names()
        names.dump_text(info["names"], dump)
        return True

    def t_spec():
        d = spec.translate_spec(info.get("names"))
        spec.dump_spec_text(d, dump)
        info["spec"] = d
        return True

    def t_regex():
        info["rx"] = regexes.translate_regexes(info["spec"])
        return True

    lib.translate(ctx, [("enumitem.rs(names, hash tables)", t_names), ("specification.rs(CHARACTER_DATA)", t_spec),
                        ("regex.rs(validators)", t_regex)])
    rx = info.get("rx")
    kinds = rx["kinds"] if rx else {}

    ctx.log("building Properties/C20.vo")
    ok, out, dt = lib.coq_make(["Properties/C20.vo"])
    if not ok:
        ctx.oblige("coq:build-closure", False, "failed files: %s\n%s" % (lib.coq_failed_files(out), out[-1200:]))
    else:
        ctx.oblige("coq:build-closure", True)
        lib.coq_hygiene(ctx, lib.closure_of("Properties/C20.vo"))
        lib.check_theorems(ctx, "Properties/C20.v", "pins/C20.json")
    ctx.log("coq done (%.0fs)" % dt)
    # the model itself must be available for the correspondence even when a proof broke
    model_ok, mout, _ = lib.coq_make(["Value/CharData.vo", "Hash/HashRealEnum.vo", "Gen/RegexData.vo", "Gen/SpecTables.vo", "Regex/Vexpr.vo", "Regex/Bisim.vo"])
    if not model_ok:
        ctx.oblige("coq:model-build", False, mout[-800:])

    avh = lib.harness_build(ctx, hooks=True)
    prop_fail = []       # concrete inputs on which the PROPERTY fails (not just model/impl disagreement)
    corr_diff = []       # model/implementation disagreements (candidates)
    if avh:
        if replay_cases is not None:
            p = os.path.join(WORK, "c20_replay_cases.txt")
            open(p, "w").write("\n".join(replay_cases) + "\n")
            rc, out, dt = lib.harness_run(avh, ["values", "eval", p], timeout=900)
        else:
            rc, out, dt = lib.harness_run(avh, ["values", "run", str(seed), tier], timeout=1500)
        open(os.path.join(WORK, "c20_impl.txt"), "w").write(out)
        hook, specs, items, fails, stats = parse_lines(out)
        ctx.log("harness: %d observations, %d oracle failures (%.0fs)" % (len(items), len(fails), dt))
        ctx.oblige("harness:values stream produced (hook H3 compiled in)", rc == 0 and bool(hook) and len(items) > 0 and any(s.startswith("STAT oracle_fail") for s in stats),
                   out[-400:] if rc else "")
        ctx.coverage["evaluations"] = len(items)
        ctx.coverage["case_kinds"] = [s[len("STAT case "):] for s in stats if s.startswith("STAT case ")]
        ctx.coverage["input_classes"] = [s[len("STAT class "):] for s in stats if s.startswith("STAT class ")]
        panics = [(c, r) for (c, r) in items if "PANIC" in r]
        ctx.oblige("oracle:no conversion panics", not panics, str(panics[:3]))
        prop_fail += ["PANIC %s => %s" % p for p in panics[:5]]

        # ---- direct property oracle (exact arithmetic in the harness); known classes are matched narrowly
        known = {e["key"]: e for e in lib.load_known("C20")}
        unknown_fails, known_hits = [], {}
        for l in fails:
            kc = known_class(l)
            if kc and kc in known and known[kc]["status"] == "known":
                known_hits.setdefault(kc, []).append(l)
            else:
                unknown_fails.append(l)
        ctx.oblige("oracle:integer exact / never a different number / bool / float prefixed exact / specials / format->parse (direct, on the implementation)",
                   not unknown_fails, "\n".join(unknown_fails[:6]))
        # failures on texts of the lexical forms first (they are the clearest witnesses)
        order = {"integer-exact": 0, "float-prefixed": 0, "bool": 0, "float-special": 0, "float-zero": 0, "format-parse": 0,
                 "integer-from-u64": 0, "float-from-u64": 0, "u64-print-parse": 0,
                 "to-string-roundtrip": 0, "serialize-roundtrip": 0, "xml-string-roundtrip": 0, "element-value": 0}
        unknown_fails.sort(key=lambda l: order.get(l.split(" ")[1], 1))
        prop_fail += unknown_fails
        ctx.coverage["oracle_failures_in_known_classes"] = {k: len(v) for k, v in known_hits.items()}

        # ---- correspondence: implementation vs Coq model (vm_compute) on every observation
        spec_map = {}
        if info.get("spec") and model_ok:
            summ = spec_summaries(info["spec"]["cdata"])
            first = {}
            for i, s in enumerate(summ):
                first.setdefault(s, i)
            missing = [i for i, s in specs.items() if s not in first]
            ctx.oblige("correspondence:every CharacterDataSpec the library hands out is an entry of the translated CHARACTER_DATA table",
                       not missing, "harness spec numbers without table entry: %s" % missing[:5])
            spec_map = {i: first[s] for i, s in specs.items() if s in first}
            kinds_used = {}
            for s in specs.values():
                kinds_used[s[0]] = kinds_used.get(s[0], 0) + 1
            ctx.coverage["specs_exercised"] = kinds_used
            r = correspondence(ctx, "values", kinds, spec_map, items)
            if r is not None:
                usable, res, diff = r
                ctx.oblige("correspondence:chardata.rs vs Coq model Value/CharData.v by vm_compute (%d observations)" % len(usable),
                           not diff, "\n".join("%s impl=%s model=%s" % (c, a[:200], b[:200]) for (c, a, b) in diff[:6]))
                ctx.coverage["traces_validated_against_impl"] = len(usable)
                ctx.coverage["distinct_nontrivial"] = len([1 for (c, r_) in usable if not r_.startswith("-") and "u8:- u16:- u32:- u64:- u128:- usize:- i8:- i16:- i32:- i64:- i128:- isize:-" not in r_])
                for (c, r_), m in list(zip(usable, res))[:: max(1, len(usable) // 10)][:10]:
                    ctx.samples.append({"case": c[:120], "impl": impl_norm(c, r_)[:160], "model": m[:160]})
                # a disagreement is a candidate; it is a property failure only if the direct oracle says so too
                ctx.coverage["correspondence_differences"] = len(diff)
                corr_diff.extend("%s impl=%s model=%s" % (c, a[:300], b[:300]) for (c, a, b) in diff[:30])

        # ---- known findings: replay
        for e in lib.load_known("C20"):
            rj = json.load(open(os.path.join(VERIF, e["replay"])))
            p = os.path.join(WORK, "c20_known.txt")
            open(p, "w").write("\n".join(rj["cases"]) + "\n")
            rc2, out2, _ = lib.harness_run(avh, ["values", "eval", p])
            _, _, items2, fails2, _ = parse_lines(out2)
            still = [l for l in fails2 if known_class(l) == e["key"] or e["status"] == "fixed"]
            if e["status"] == "fixed":
                ctx.oblige("regression:%s" % e["key"], rc2 == 0 and not fails2 and len(items2) >= len(rj["cases"]), "failure is back: %s" % fails2[:3])
                prop_fail += fails2[:3]
            elif still:
                ctx.known(e["what"])
            else:
                ctx.notes.append("known finding %s no longer reproduces" % e["key"])

    if ctx.broken:
        if prop_fail:
            ctx.violation({"property": "C20", "kind": "failing-input", "what": prop_fail[:20],
                           "cases": [l.split(" : ")[0].split(" ", 2)[2] for l in prop_fail if l.startswith("ORACLE-FAIL")][:50],
                           "format": "ORACLE-FAIL <class> <case> : <what>; a case is `PI|PF|PB <hex of the text>`, `PFU <u64>`, `RT <spec#> <version> <value>` ...",
                           "broken_obligations": ctx.broken, "model_vs_implementation": corr_diff,
                           "how_to_replay": "./check C20 --replay <this file>   (or: avh values eval <file with the cases>)"})
        else:
            # no input violates the property: the direct oracle (bit-level round trip of to_string / serialize_internal /
            # format->parse over the whole stream, which always contains -0.0, +-inf, NaNs, subnormals, max finite) held
            rt_classes = [c for c in ctx.coverage.get("input_classes", []) if c.startswith(("format:", "roundtrip:"))]
            ctx.violation({"property": "C20", "kind": "obligation", "broken_obligations": ctx.broken,
                           "failing_input_search": "round-trip oracle (parse(format(x)) == x at bit level, same value type) held on every value of the stream; "
                                                   "a difference between model and implementation below is a spelling / behaviour difference without a property failure on the explored inputs",
                           "roundtrip_oracle_classes": rt_classes,
                           "model_vs_implementation": corr_diff,
                           "cases": [d.split(" impl=")[0] for d in corr_diff],
                           "detail": [o for o in ctx.obligations if not o[1]]}, found_input=False)
    return ctx.finish(
        level="proof",
        rule="every observation of the generated stream goes through BOTH the direct oracle (exact arithmetic in the harness) and the Coq model "
             "(vm_compute); stream = boundary values of every width x every lexical form, rounding ties of u64->f64, prefixed texts up to 1100 bits, "
             "members of regex 13/16/21/6 + one-edit neighbours, fixed oddities, f64 bit classes, every reachable CharacterDataSpec x versions; "
             "distinct_nontrivial = observations with a non-empty result",
        trusted_base=["Coq 8.16.1 kernel incl. vm_compute",
                      "Value/ValueSpec.v int_value/liberal_value/prefixed_value as the meaning of the lexical forms (tied to regex 13/21/6 by theorem)",
                      "Value/Num.v from_str_radix = core::num (modelled from the std source; sampled by the correspondence on all 12 integer types)",
                      "std float conversions are Section variables: dec_parse (str::parse::<f64> on decimal texts) and dec_fmt (f64::to_string on finite values); "
                      "in the correspondence run they are instantiated per case with what std itself answered in the harness for DECIMAL texts only; "
                      "prefixed, zero, inf/nan forms are computed by the model",
                      "IEEE-754: `u64 as f64` rounds to nearest, ties to even (modelled as u64_as_f64, proved correctly rounded, sampled incl. all tie shapes); "
                      "`x * 2f64.powi(n)` for a positive normal x is exact scaling, +inf beyond the finite range (modelled as f64_scale2, sampled with texts up to 1100 bits)",
                      "translator (names.py, spec.py, regexes.py) copies the tables; harness + hook H3 (three pub wrappers)"],
        checker_cmd="make -C coq Properties/C20.vo && Print Assumptions per theorem; avh values run | coqc cases",
        assumptions=["float round trip: forall finite x, f64_from_str dec_parse (dec_fmt x) = Some x  (std: shortest repr round-trips) — hypothesis of C20_format_parse_float",
                     "texts are valid UTF-8 (&str); byte-level model is exact for ASCII operations",
                     "usize/isize are 64 bit"])


def replay(path):
    r = json.load(open(path))
    print(json.dumps(r, indent=1)[:3000])
    cases = r.get("cases") or []
    return run("quick", 1, replay_cases=cases if cases else None)
