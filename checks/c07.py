"""C07 — what the editing API builds conforms to the specification the loader enforces.

Theorems: coq/Properties/C07.v (range exactness / completeness / error clause, creation iff range, listing iff creation,
order invariant for create + remove, Ordered -> LoaderAccepts, [F] SpecWF of the regenerated tables, two witnesses).
Tie: (1) translator: spec tables + Gen/WFSweep*.v (translator/specwf.py); (2) the C07 SWEEP: every ElementType reachable
from ROOT x versions x contents of size 0..2 — list_valid_sub_elements, calc_element_insert_range for every listed name and
the brute-forced result of create_[named_]sub_element_at at every position, implementation (`avh range sweep`) against the
extracted Coq model (`avm_range`), digest per (type, version); (3) the generic tree histories (implementation vs avm_tree).
Oracles on the implementation (never the model): created-at-p iff lo<=p<=hi, is_allowed iff create succeeds, listing and
specification order read independently from the dumped tables, serialize + lenient reload gives only RequiredAttributeMissing
and the same content — in the sweep and after every operation of every history; cross-version copies."""
import os, sys, json, re, time, hashlib
import concurrent.futures as cf
import lib, xmlcommon
from lib import Ctx, WORK, VERIF, REPO

SHARED_DUMP = os.path.join(WORK, "dump")
CW = os.path.join(WORK, "c07")
# a private copy of the translator's text dump: other checks re-write work/dump (not atomically) while this one runs
DUMP = os.path.join(CW, "dump")
AVM_RANGE = os.path.join(VERIF, "ocaml", "_build", "avm_range")
AVM_TREE = os.path.join(VERIF, "ocaml", "_build", "avm_tree")
NSHARDS = 16
HSHARDS = 8

VERSION_FAILS = ("warning:ElementVersionError", "warning:AttributeVersionError", "warning:EnumItemVersionError",
                 "order:child-not-in-version", "order:not-in-specification-order")


def classify_hfail(line):
    """HFAIL line of `avh range hist` -> key of the known finding that explains it, or None"""
    m = re.search(r"kind=(\S+)", line)
    kind = m.group(1) if m else "?"
    m = re.search(r"causes=(\S+)", line)
    causes = m.group(1).split(",") if m else []
    if kind == "warning:LOAD-ERROR:InvalidArxmlFileHeader" and "root-namespace-edited" in causes:
        return "root-namespace-editable"
    if kind == "reload-content-differs:string-blank-or-empty":
        return "string-blank-or-empty"
    if kind == "reload-content-differs:adjacent-text-merged" and "adjacent-text-items" in causes:
        return "adjacent-text-items-merge"
    # the two recorded classes together (string values trimmed AND neighbouring texts merged), nothing else differs
    if kind == "reload-content-differs:string-blank-and-adjacent-text" and "adjacent-text-items" in causes:
        return "adjacent-text-items-merge"
    if kind == "warning:LOAD-ERROR:OverlappingDataError" and "duplicate-path" in causes:
        return "duplicate-path-unloadable"
    if kind in VERSION_FAILS and "mixed-version-files" in causes:
        return "mixed-version-files"
    if "after-cross-version-copy" in causes and (kind in VERSION_FAILS or kind == "reload-content-differs"):
        return "copy-keeps-source-type"
    # an element hangs below a parent that lists its name with another DATATYPE (moved / copied there, the stored type is kept):
    # the loader reads everything below it with the other type.  Order failures are not excused (the order oracle reads the stored type).
    # make_unique_item_name (move / copy into a place where the name is taken) appends _<n> without checking the length limit
    if kind == "warning:StringValueTooLong" and "item-name-over-length" in causes:
        return "unique-name-exceeds-max-length"
    if kind == "warning:RequiredSubelementMissing" and "short-name-not-first" in causes:
        return "insert-before-short-name"
    if "stored-type-mismatch" in causes and (kind.startswith("warning:") or kind == "reload-content-differs"):
        return "move-keeps-source-type"
    return None


def classify_xattach(line):
    """XATTACH line of `avh range xattach` -> key of the known finding that explains it, or None"""
    f = dict(x.split("=", 1) for x in line.split()[1:] if "=" in x and not x.startswith(("reload", "cause")))
    sig = line.replace(" FIRST", "").split()[-1]
    parts = sig.split(";")
    causes = [p for p in parts if p.startswith("cause:")]
    probs = [p for p in parts if not p.startswith("cause:")]
    if "PANIC" in probs or "mismatch-reading-differs" in probs or not probs:
        return None
    if not all(p.startswith("reload-warning:") or p.startswith("reload-content-differs") for p in probs):
        return None
    if probs == ["reload-warning:LOAD-ERROR:OverlappingDataError"] and "cause:duplicate-path" in causes:
        return "duplicate-path-unloadable"
    if probs == ["reload-warning:StringValueTooLong"] and "cause:item-name-over-length" in causes:
        return "unique-name-exceeds-max-length"
    if f.get("dt") == "differs" and f.get("stored") != f.get("c2"):
        return "move-keeps-source-type"
    return None


def par(cmds, timeout=3000, workers=16, env=None):
    with cf.ThreadPoolExecutor(max_workers=workers) as ex:
        futs = [ex.submit(lib.run, c, WORK, timeout, env) for c in cmds]
        return [f.result() for f in futs]


def private_dump():
    """copies work/dump to work/c07/dump and checks that the copy is complete (declared counts = lines present)"""
    import shutil
    for attempt in range(8):
        try:
            os.makedirs(DUMP, exist_ok=True)
            for f in os.listdir(SHARED_DUMP):
                shutil.copyfile(os.path.join(SHARED_DUMP, f), os.path.join(DUMP, f))
            L = open(os.path.join(DUMP, "spec_tables.txt")).read().split("\n")
            p = 4
            ok = L[0].startswith("REFERENCE_TYPE_IDX")
            for name, oneline in (("CDATA", False), ("ELEMENTS", False), ("SUBELEMENTS", False), ("ATTRIBUTES", False), ("DATATYPES", False),
                                  ("VERSION_INFO", True), ("REF_ITEMS", True)):
                k, n = L[p].split()
                ok = ok and k == name
                if oneline:
                    ok = ok and len(L[p + 1].split()) == int(n)
                    p += 2
                else:
                    p += 1 + int(n)
            for kind in ("Element", "Attr", "Enum"):
                ok = ok and len(open(os.path.join(DUMP, "names_%s.txt" % kind)).read().split("\n")) > 100
            ok = ok and os.path.getsize(os.path.join(DUMP, "regex_dfa.txt")) > 1000 and os.path.getsize(os.path.join(DUMP, "versions.txt")) > 100
            if ok:
                return True
        except Exception:
            pass
        time.sleep(1.5)
    return False


def build_runner(ctx, script, what, binpath):
    # other checks build in the same ocaml/_build concurrently: retry a failed link
    for attempt in range(4):
        rc, out, dt = lib.run([os.path.join(VERIF, "ocaml", script)], timeout=1800)
        if rc == 0 and os.path.exists(binpath):
            break
        time.sleep(3 + 4 * attempt)
    ok = rc == 0 and os.path.exists(binpath)
    ctx.oblige("build:%s" % what, ok, out[-1500:] if not ok else "")
    return binpath if ok else None


def split_scripts(path):
    res, cur, k = {}, [], None
    for line in open(path):
        if line.startswith("SCRIPT "):
            if k is not None:
                res[k] = "".join(cur)
            k, cur = int(line.split()[1]), [line]
        else:
            cur.append(line)
    if k is not None:
        res[k] = "".join(cur)
    return res


# ------------------------------------------------------------------------------------------------ sweep
def sweep(ctx, avh, avm, tier, prop_fail):
    os.makedirs(CW, exist_ok=True)
    plan = os.path.join(CW, "plan_%s.txt" % tier)
    rc, out, _ = lib.harness_run(avh, ["range", "plan", DUMP, tier, plan])
    st = [l for l in out.split("\n") if l.startswith("STAT plan")]
    okp = rc == 0 and st and os.path.exists(plan)
    ctx.oblige("sweep:plan(every reachable ElementType has a creation chain through the public API in some version)", okp, out[-400:])
    if not okp:
        return
    m = re.search(r"types=(\d+) lines=(\d+) types_unreachable_in_every_version=(\d+) unbuildable_pairs=(\d+)", st[0])
    ntypes, nlines, nunreach = int(m.group(1)), int(m.group(2)), int(m.group(3))
    ctx.coverage["sweep_types_reachable_from_ROOT"] = ntypes
    ctx.coverage["sweep_type_version_pairs"] = nlines
    ctx.coverage["sweep_types_without_buildable_chain"] = nunreach
    ctx.notes.append(st[0])
    plan_lines = open(plan).read().split("\n")
    cmds = [[avh, "range", "sweep", DUMP, plan, tier, str(k), str(NSHARDS)] for k in range(NSHARDS)]
    if avm:
        cmds += [[avm, DUMP, plan, tier, str(k), str(NSHARDS)] for k in range(NSHARDS)]
    t0 = time.time()
    res = par(cmds, timeout=5400 if tier == "thorough" else 1500)
    ctx.log("sweep: %d processes in %.0fs" % (len(cmds), time.time() - t0))
    impl, model, stats, dis, buildfail, errs = {}, {}, {}, [], [], []
    for i, (rc, out, _) in enumerate(res):
        side = impl if i < NSHARDS else model
        if rc != 0:
            errs.append("%s shard %d rc=%d %s" % ("impl" if i < NSHARDS else "model", i % NSHARDS, rc, out[-200:]))
        for l in out.split("\n"):
            if l.startswith("T "):
                side[int(l.split()[1])] = l
            elif l.startswith("STAT ") and i < NSHARDS:
                f = l.split()
                stats[f[1]] = stats.get(f[1], 0) + int(f[2])
            elif l.startswith("DISAGREE"):
                dis.append(l)
            elif l.startswith("BUILDFAIL"):
                buildfail.append(l)
    ctx.oblige("sweep:implementation side complete (%d (type, version) pairs, no build failure, no crash)" % nlines,
               not errs[:NSHARDS] and not buildfail and len(impl) == nlines, "; ".join((errs + buildfail)[:4]) or "%d of %d lines" % (len(impl), nlines))
    ctx.coverage["sweep_distribution"] = stats
    ctx.coverage["evaluations"] += stats.get("ranges", 0) + stats.get("creates_at", 0) + stats.get("creates_default", 0) + stats.get("order_checks", 0)
    ctx.coverage["distinct_nontrivial"] += stats.get("contents0", 0) + stats.get("contents1", 0) + stats.get("contents2", 0)
    ctx.samples += [impl[k] for k in sorted(impl)[:3]]
    # oracles
    classes = {}
    for d in dis:
        classes.setdefault(d.split()[1], []).append(d)
    for cls in ("range-vs-create", "allowed-vs-create", "listing", "spec-order", "order-inv", "reload", "reload-content", "create-position"):
        ctx.oblige("oracle:sweep %s" % cls, cls not in classes, "\n".join(classes.get(cls, [])[:3]))
    for cls in classes:
        if cls not in ("range-vs-create", "allowed-vs-create", "listing", "spec-order", "order-inv", "reload", "reload-content", "create-position"):
            ctx.oblige("oracle:sweep %s" % cls, False, "\n".join(classes[cls][:3]))
    for d in dis[:40]:
        m = re.search(r"plan-line=(\d+)", d)
        k = int(m.group(1)) if m else -1
        prop_fail.append({"kind": "sweep", "disagree": d, "plan_line": plan_lines[k] if 0 <= k < len(plan_lines) else "?"})
    # correspondence
    if avm:
        mism = [k for k in sorted(set(impl) | set(model)) if impl.get(k) != model.get(k)]
        detail = ""
        if mism:
            drill = []
            for k in mism[:3]:
                one = os.path.join(CW, "one_plan.txt")
                open(one, "w").write(plan_lines[k] + "\n")
                _, o1, _ = lib.run([avh, "range", "sweep", DUMP, one, tier, "0", "1", "-v", "0"], cwd=WORK, timeout=600)
                _, o2, _ = lib.run([avm, DUMP, one, tier, "0", "1", "-v", "0"], cwd=WORK, timeout=600)
                a = [l for l in o1.split("\n") if l and not l.startswith(("STAT", "DISAGREE"))]
                b = [l for l in o2.split("\n") if l]
                ctxt = ""
                for i, (x, y) in enumerate(zip(a, b)):
                    if x.startswith("C "):
                        ctxt = x
                    if x != y:
                        drill.append({"plan_line": plan_lines[k], "content": ctxt, "impl": x, "model": y})
                        break
                else:
                    drill.append({"plan_line": plan_lines[k], "impl_lines": len(a), "model_lines": len(b)})
            detail = json.dumps(drill)[:1500]
            ctx.notes.append("sweep mismatches (first 3 drilled down): " + detail)
            ctx.coverage["sweep_mismatch_drilldown"] = drill
        ctx.oblige("correspondence:sweep(implementation vs extracted Coq model: listing, range, creation at every position, spec order; %d digests)" % len(impl),
                   not errs[NSHARDS:] and not mism and len(model) == len(impl), ("%d differing (type, version) pairs, e.g. %s " % (len(mism), mism[:5])) + detail)
        ctx.coverage["traces_validated_against_impl"] = len(impl) - len(mism)


# ------------------------------------------------------------------------------------------------ histories
def histories(ctx, avh, avm_tree, tier, seed, prop_fail, known_hits):
    os.makedirs(CW, exist_ok=True)
    n = 3000 if tier == "thorough" else 400
    per = n // HSHARDS

    def shard(i):
        sf = os.path.join(CW, "hist_%s_%d.txt" % (tier, i))
        r = {"shard": i, "script_file": sf}
        rc, out, _ = lib.run([avh, "tree", "gen", DUMP, str(seed * 1000 + 700 + i), tier, sf, str(per)], cwd=CW,
                             env={"AVH_TREE_ENABLE": "serialize"}, timeout=2400)
        r["gen_stats"] = [l for l in out.split("\n") if l.startswith("STAT")]
        if rc != 0 or not os.path.exists(sf):
            r["error"] = "generator failed: " + out[-300:]
            return r
        rc1, o1, _ = lib.run([avh, "tree", "run", DUMP, sf], cwd=CW, timeout=3000)
        a = {l.split()[1]: l for l in o1.split("\n") if l.startswith("S ")}
        r["n"] = len(a)
        if avm_tree:
            rc2, o2, _ = lib.run([avm_tree, DUMP, sf], cwd=CW, timeout=3000)
            b = {l.split()[1]: l for l in o2.split("\n") if l.startswith("S ")}
            r["mismatch"] = sorted(int(k) for k in set(a) | set(b) if a.get(k) != b.get(k))
        rc3, o3, _ = lib.run([avh, "range", "hist", DUMP, sf], cwd=CW, timeout=3000)
        r["hfail"] = [l for l in o3.split("\n") if l.startswith("HFAIL ")]
        r["stat"] = [l for l in o3.split("\n") if l.startswith("STAT hist")]
        r["oracle_rc"] = rc3
        return r

    t0 = time.time()
    with cf.ThreadPoolExecutor(max_workers=HSHARDS) as ex:
        shards = list(ex.map(shard, range(HSHARDS)))
    ctx.log("histories: %d scripts in %.0fs" % (n, time.time() - t0))
    errs = [s["error"] for s in shards if "error" in s]
    steps = sum(int(re.search(r"steps=(\d+)", s["stat"][0]).group(1)) for s in shards if s.get("stat"))
    ops = {}
    for s in shards:
        for l in s.get("gen_stats", []):
            m = re.match(r"STAT op=(\S+) ok=(\d+) err=(\d+)", l)
            if m:
                o = ops.setdefault(m.group(1), [0, 0])
                o[0] += int(m.group(2))
                o[1] += int(m.group(3))
    ctx.coverage["history_scripts"] = sum(s.get("n", 0) for s in shards)
    ctx.coverage["history_steps"] = steps
    ctx.coverage["history_ops_ok_err"] = ops
    ctx.coverage["evaluations"] += steps
    ctx.oblige("histories:generated and executed (%d scripts)" % n, not errs and all(s.get("oracle_rc") == 0 for s in shards), "; ".join(errs[:3]))
    if avm_tree:
        mism = [(s["shard"], k) for s in shards for k in s.get("mismatch", [])]
        ctx.oblige("correspondence:tree-histories(implementation vs extracted Coq model, every operation result and the full observation after it)",
                   not mism, "scripts that differ (shard, script): %s" % mism[:8])
        ctx.coverage["traces_validated_against_impl"] = ctx.coverage.get("traces_validated_against_impl", 0) + sum(s.get("n", 0) for s in shards) - len(mism)
    unexplained = []
    for s in shards:
        for l in s.get("hfail", []):
            key = classify_hfail(l)
            if key:
                known_hits.setdefault(key, []).append(l)
            else:
                unexplained.append((s, l))
    ctx.coverage["history_failures_attributed_to_known_findings"] = {k: len(v) for k, v in known_hits.items()}
    ctx.oblige("oracle:histories(every file serializes, re-loads leniently with only RequiredAttributeMissing and the same content; every child list in specification order)",
               not unexplained, "\n".join(l for _, l in unexplained[:5]))
    for s, l in unexplained[:10]:
        m = re.search(r"script=(\d+)", l)
        k = int(m.group(1)) if m else -1
        text = split_scripts(s["script_file"]).get(k, "")
        prop_fail.append({"kind": "history", "hfail": l, "script": text})


def run_hist_script(avh, text, name):
    p = os.path.join(CW, name)
    open(p, "w").write(text)
    rc, out, _ = lib.run([avh, "range", "hist", DUMP, p], cwd=CW, timeout=300, env={"AVH_RANGE_RESULTS": "1"})
    return rc, out


def xattach(ctx, avh, tier, prop_fail, known_hits):
    """move / copy below a parent that lists the name with ANOTHER element type, inside one version"""
    t0 = time.time()
    res = par([[avh, "range", "xattach", DUMP, tier, str(i), str(NSHARDS)] for i in range(NSHARDS)], timeout=3000)
    lines, stats = [], []
    for rc, out, _ in res:
        lines += [l for l in out.split("\n") if l.startswith("XATTACH ")]
        stats += [l for l in out.split("\n") if l.startswith("STAT xattach")]
    tot = {}
    for l in stats:
        for k, v in re.findall(r"(\w+)=(\d+)", l):
            tot[k] = tot.get(k, 0) + int(v) if k != "versions" else int(v)
    ctx.log("attach sweep: %s in %.0fs" % (tot, time.time() - t0))
    ctx.coverage["attach_sweep"] = tot
    ctx.coverage["evaluations"] += tot.get("combinations", 0)
    other = []
    for l in lines:
        key = classify_xattach(l)
        if key:
            known_hits.setdefault(key, []).append(l)
        else:
            other.append(l)
    done = all(rc == 0 for rc, _, _ in res) and len(stats) == NSHARDS and tot.get("attached", 0) > 0
    ctx.oblige("oracle:attach sweep(move within a model, move from another model and copy, inside one version, below every parent type that lists the "
               "name with another element type: the target file re-loads with only RequiredAttributeMissing and the same content; only the recorded finding "
               "move-keeps-source-type = the attached element kept a type of another DATATYPE)", done and not other, "\n".join(other[:3]) or "sweep incomplete")
    for l in other[:5]:
        prop_fail.append({"kind": "xattach", "line": l, "how_to_replay": "./check C07 --replay <this file>   (= harness/target/debug/avh range xattach work/c07/dump thorough 0 1 %s | grep '%s')"
                          % (re.search(r" v=(\d+) ", l).group(1), " ".join(l.split()[1:8]))})


def classify_xver(line):
    """XVER line of `avh range xver` -> key of the known finding that explains it, or None"""
    f = dict(x.split("=", 1) for x in line.split()[1:] if "=" in x and not x.startswith(("reload", "cause")))
    sig = line.replace(" FIRST", "").split()[-1]
    parts = sig.split(";")
    causes = [p for p in parts if p.startswith("cause:")]
    probs = [p for p in parts if not p.startswith("cause:")]
    if not probs or not all(p.startswith("reload-warning:") or p.startswith("reload-content-differs") for p in probs):
        return None
    # a nested element built where its type has no SHORT-NAME, copied into a version where the type is identifiable
    if "cause:named-without-short-name" in causes and probs == ["reload-warning:RequiredSubelementMissing"]:
        return "copy-unnamed-into-named-version"
    # C13's class: an enumeration value as ELEMENT TEXT is copied unchecked
    if f.get("item", "").startswith("cdenum:") and f.get("inside") == "0" and probs == ["reload-warning:EnumItemVersionError"]:
        return "copy-enum-text-unfiltered"
    if probs == ["reload-warning:StringValueTooLong"] and "cause:item-name-over-length" in causes:
        return "unique-name-exceeds-max-length"
    if "cause:stored-type-mismatch" in causes:
        return "copy-keeps-source-type"
    # create_copied_sub_element_at accepts a position in front of the SHORT-NAME of an identifiable element with MIXED content
    # (visible since parser fix f86b268: only a SHORT-NAME that is the first sub element names its parent)
    if f.get("kind") == "copy_at" and causes == ["cause:short-name-not-first"] and probs == ["reload-warning:RequiredSubelementMissing"]:
        return "insert-before-short-name"
    return None


def xver(ctx, avh, tier, prop_fail, known_hits):
    """version-dependent content (attributes, enumeration values, sub-elements with a partial version mask) copied across versions"""
    t0 = time.time()
    res = par([[avh, "range", "xver", DUMP, tier, str(i), str(NSHARDS)] for i in range(NSHARDS)], timeout=3000)
    lines, stats = [], []
    for rc, out, _ in res:
        lines += [l for l in out.split("\n") if l.startswith("XVER ")]
        stats += [l for l in out.split("\n") if l.startswith("STAT xver")]
    tot = {}
    for l in stats:
        for k, v in re.findall(r"(\w+)=(\d+)", l):
            tot[k] = int(v) if k == "items" else tot.get(k, 0) + int(v)
    ctx.log("cross-version content sweep: %s in %.0fs" % (tot, time.time() - t0))
    ctx.coverage["cross_version_content_sweep"] = tot
    ctx.coverage["evaluations"] += tot.get("combinations", 0)
    other = []
    for l in lines:
        key = classify_xver(l)
        if key:
            known_hits.setdefault(key, []).append(l)
        else:
            other.append(l)
    done = all(rc == 0 for rc, _, _ in res) and len(stats) == NSHARDS and tot.get("copied", 0) > 0
    ctx.oblige("oracle:cross-version content sweep(every datatype x every attribute / enumeration value of an attribute / enumeration value as text / sub-element "
               "with a partial version mask: built in the oldest and newest version inside the mask, copied with create_copied_sub_element[_at] into files of versions "
               "outside and inside the mask, older->newer and newer->older: the target file re-loads with only RequiredAttributeMissing and the same content; "
               "only the recorded findings)", done and not other, "\n".join(other[:3]) or "sweep incomplete")
    for l in other[:5]:
        dt = re.search(r" dt=(\d+) ", l).group(1)
        prop_fail.append({"kind": "xver", "line": l,
                          "how_to_replay": "./check C07 --replay <this file>   (= harness/target/debug/avh range xver work/c07/dump thorough 0 1 %s | grep '%s'; "
                                           "AVH_RANGE_SHOW=1 prints the text of the target file)" % (dt, " ".join(l.split()[1:8]))})


def known_findings(ctx, avh, prop_fail, known_hits):
    xc = None
    for e in lib.load_known("C07"):
        r = json.load(open(os.path.join(VERIF, e["replay"])))
        if r.get("kind") == "history":
            rc, out = run_hist_script(avh, r["script"], "replay_%s.txt" % e["key"])
            hf = [l for l in out.split("\n") if l.startswith("HFAIL ")]
            res = {int(m.group(1)): m.group(2) for m in re.finditer(r"RES step=(\d+) op=\S+ (R [^\n]*?) script=", out)}
            if e["status"] == "fixed":
                exp = r["expect_after_fix"]
                got = res.get(exp["step"], "?")
                ok = rc == 0 and got.startswith(exp["result"]) and not hf
                ctx.oblige("regression:%s" % e["key"], ok, "step %d gives %r (expected %r); oracle: %s" % (exp["step"], got, exp["result"], hf[:2]))
                if not ok:
                    prop_fail.append({"kind": "history", "hfail": "regression of %s (fix %s): step %d gives %s %s" % (e["key"], e.get("commit"), exp["step"], got, hf[:2]),
                                      "script": r["script"]})
            else:
                exp = r["expect"]
                hit = [l for l in hf if ("kind=" + exp["kind"]) in l and (exp["cause"] == "-" or exp["cause"] in l) and classify_hfail(l) == e["key"]]
                if hit:
                    known_hits.setdefault(e["key"], []).append(hit[0])
                else:
                    ctx.notes.append("known finding %s no longer reproduces with its replay (a fix landed?)" % e["key"])
                    known_hits.setdefault(e["key"], [])
        elif r.get("kind") == "xcopy":
            rc, out, _ = lib.harness_run(avh, ["range", "xcopy", DUMP], timeout=900)
            xl = [l for l in out.split("\n") if l.startswith("XCOPY ")]
            st = [l for l in out.split("\n") if l.startswith("STAT xcopy")]
            xc = (rc, xl, st)
            hits = [l for l in xl if "type-of-copy" in l]
            other = []
            for l in xl:
                sig = l.split(" ", 5)[-1].replace(" FIRST", "")
                parts = [p for p in sig.split(";") if not p.startswith("type-of-copy")]
                # with the wrong type the re-loaded content may differ as well (value kinds); anything else is new
                parts = [p for p in parts if p != "reload-content-differs"]
                if parts:
                    other.append(l)
            ctx.coverage["cross_version_copies"] = st[0] if st else "?"
            ctx.oblige("oracle:cross-version copies (only the recorded finding copy-keeps-source-type)", rc == 0 and st and not other, "\n".join(other[:3]))
            for l in other[:5]:
                prop_fail.append({"kind": "xcopy", "line": l})
            known_hits.setdefault(e["key"], [])
            known_hits[e["key"]] += hits[:3]
            if not hits:
                ctx.notes.append("known finding %s no longer reproduces (a fix landed?)" % e["key"])
    # print each known finding that showed up (in its replay or in the streams)
    for e in lib.load_known("C07"):
        if e["status"] == "known" and known_hits.get(e["key"]):
            ctx.known("%s: %s" % (e["key"], e["what"]))


# ------------------------------------------------------------------------------------------------ main
def run(tier, seed):
    ctx = Ctx("C07", tier, seed)
    ctx.coverage["evaluations"] = 0
    ctx.coverage["distinct_nontrivial"] = 0
    ok_tr, info = xmlcommon.translate_all(ctx)

    def t_wf():
        import specwf
        return specwf.emit_wf_sweeps(info["spec"])

    tr = lib.translate(ctx, [("spec-wf-sweeps(coq/Gen/WFSweep*.v from the current tables)", t_wf)])
    ctx.log("building Properties/C07.vo")
    ok, out, dt = lib.coq_make(["Properties/C07.vo"])
    if not ok:
        ctx.oblige("coq:build-closure", False, "failed files: %s\n%s" % (lib.coq_failed_files(out), out[-1200:]))
    else:
        ctx.oblige("coq:build-closure", True)
        lib.coq_hygiene(ctx, lib.closure_of("Properties/C07.vo"))
        lib.check_theorems(ctx, "Properties/C07.v", "pins/C07.json")
    ctx.log("coq done (%.0fs)" % dt)

    avh = lib.harness_build(ctx)
    avm = build_runner(ctx, "build_range.sh", "range-model-runner(extraction of Tree/Ops+Range+ValidSubs, ocaml)", AVM_RANGE)
    avm_tree = build_runner(ctx, "build_tree.sh", "tree-model-runner(extraction of Tree/*.v, ocaml)", AVM_TREE)
    prop_fail, known_hits = [], {}
    have_dump = private_dump()
    ctx.oblige("translator:text dump for the harness and the model runners (private copy complete)", have_dump)
    if avh and have_dump:
        sweep(ctx, avh, avm, tier, prop_fail)
        histories(ctx, avh, avm_tree, tier, seed, prop_fail, known_hits)
        xattach(ctx, avh, tier, prop_fail, known_hits)
        xver(ctx, avh, tier, prop_fail, known_hits)
        known_findings(ctx, avh, prop_fail, known_hits)

    if ctx.broken:
        if prop_fail:
            for pf in prop_fail[:3]:
                obj = {"property": "C07", "broken_obligations": ctx.broken}
                obj.update(pf)
                if pf["kind"] == "sweep":
                    obj["how_to_replay"] = ("./check C07 --replay <this file>   (writes plan_line to a one-line plan and runs "
                                            "`avh range sweep work/dump <plan> quick 0 1 -v 0`; DISAGREE lines name type, version, content, name, position)")
                elif pf["kind"] == "history":
                    obj["how_to_replay"] = "./check C07 --replay <this file>   (runs `avh range hist work/dump <script>`)"
                ctx.violation(obj)
        else:
            ctx.violation({"property": "C07", "kind": "obligation", "broken_obligations": ctx.broken,
                           "detail": [o for o in ctx.obligations if not o[1]][:10]}, found_input=False)
    return ctx.finish(
        level="proof",
        rule="sweep: every ElementType reachable from ROOT that can be built through the API (9158 of 9160) x versions (quick: first, median, last "
             "version in which the type is reachable; thorough: all) x contents [] / base, base+1 listed child (quick <=16, thorough <=64 per type), "
             "base+2 (quick 3x3, thorough 12x12): listing, range of EVERY listed name, creation at EVERY position 0..len+1, default creation, "
             "spec order of every insertion (independent reading), reload after creation; histories: generic tree scripts (create/at/named/copy "
             "incl. across versions and models/move/remove/set data/attributes/files) with reload + order oracle after every operation; "
             "all 532 cross-version copy combinations; attach sweep: per version (quick: newest, oldest, median; thorough: all) every name that two parent types list with "
             "different child ElementTypes x every ordered pair of child types x {move in one model, move from another model, copy}: reload of the target file; "
             "cross-version content sweep: every datatype x every attribute / attribute enum value / text enum value / sub-element with a partial version mask, built inside the mask "
             "(oldest, newest version), copied with create_copied_sub_element[_at] into versions outside and inside the mask (both directions), target file re-loaded; "
             "distinct_nontrivial = (type, version, content) scenarios swept",
        trusted_base=["Coq 8.16.1 kernel incl. vm_compute", "translator/spec.py, specwf.py (copy literals; lengths asserted)",
                      "extraction (ExtrOcamlBasic only) + ocaml/range_driver.ml, tree_driver.ml for the tie",
                      "harness/src/range.rs (sweep, oracles; its independent reading of the dumped tables is itself compared with Range.orderedb in the sweep)",
                      "Tree/Range.v Ordered / LoaderAccepts as the meaning of `specification order` / `what the loader checks about a child list`"],
        checker_cmd="make -C coq Properties/C07.vo && Print Assumptions per theorem && sweep/history correspondence (checks/c07.py)",
        assumptions=["single-threaded semantics (locks always succeed)", "every handle is retained (no deallocation)",
                     "the order invariant is proved per operation (create, named, get_or_create, copy, move, remove) for the version in force when the operation runs; "
                     "it is FALSE for the current min_version after a file of another version joins (C07_order_history_refuted = finding mixed-version-files); "
                     "copy needs Closed w (part of C03's invariant); move: no side case left for the destination (C07_order_inv_move_all)",
                     "the reload clause: C07_reload_clean_world is about the bytes f_serialize writes (via C10_file_self_contained; Project.proj = Files.fproj) and has hypotheses on the "
                     "WORLD only: WorldOK (structure: order invariant + stored type = resolved type), WorldCanon/RootHeader (value level: comments and names that read back, canonical value "
                     "spellings, every required attribute present, non-blank text, layout of the kept content, header attributes of the version) and C10's NoHollow. "
                     "NOT derived: that the editing calls maintain WorldCanon (they do not: the recorded findings string-blank-or-empty, root-namespace-editable and the allowed "
                     "RequiredAttributeMissing are its failures) and the exact-type clause of WorldOK after move/copy (finding move-keeps-source-type; under attach_ok only the "
                     "datatype is kept, for which C07_move/copy_typed_loader_accepts give the structural acceptance LoaderWalk, not equality of the re-loaded tree); "
                     "on the implementation the clause is checked by oracle, recorded exceptions are the known findings printed",
                     "history theorem C07_order_histories: every create_file of the history uses ONE version v <= LATEST (decidable single_version); covers failing calls as well; "
                     "AllOrd is about the STORED types. C07_api_built_reloads: the value-level and typing conditions are CHECKED (world_checkb, sound), not derived from the history: "
                     "the editing calls do not maintain them (findings string-blank-or-empty, root-namespace-editable, move/copy-keeps-source-type, adjacent-text-items-merge, "
                     "insert-before-short-name, never-set required attributes); the checker asks for every required attribute, so the conclusion is `no warning at all`",
                     "attach theorems: PairOK T is C17's table fact ([F] for the current tables: Tree/CompatReal.v PairOK_real, not re-proved in C07's closure), TypedU is C17's history invariant; "
                     "move: source parent <> destination (same parent is a reposition: C07_order_inv_move part 1)"],
        extra={"theorem_kinds": {"C07_SpecWF_real": "F", "C07_range_exact": "U", "C07_range_complete": "U", "C07_range_err": "U", "C07_range_bounds": "U",
                                 "C07_create_iff_range": "U", "C07_create_err": "U", "C07_create_named_only_in_range": "U", "C07_loader_checks_quiet": "U", "C07_create_named_iff": "U",
                                 "C07_order_inv_named": "U", "C07_order_inv_copy": "U", "C07_order_inv_move": "U",
                                 "C07_reload_bridge": "U", "C07_reload_clean_composed": "U (hypotheses: RootCanon of C01, not derived)",
                                 "C07_worldok_nonvacuous": "F", "C07_order_history_refuted": "F-witness", "C07_order_history_was_ordered": "F", "C07_allowed_iff_range": "U", "C07_allowed_iff": "U",
                                 "C07_order_inv_partial": "P", "C07_ordered_loader_accepts": "U", "C07_loader_enforces_order_refuted": "F-witness",
                                 "C07_copy_resolves_type_refuted": "F-witness", "C07_ordered_nonvacuous": "F",
                                 "C07_move_resolves_type_refuted": "F-witness (history built with the permissive name validator ok_check)",
                                 "C07_attach_loader_walk": "U", "C07_move_typed_loader_accepts": "U (hypotheses attach_ok, PairOK, TypedU of C17)",
                                 "C07_copy_typed_loader_accepts": "U (hypotheses attach_ok, PairOK, TypedU of C17; Closed of C13)",
                                 "C07_order_inv_move_all": "U", "C07_proj_is_fproj": "U", "C07_reload_clean_file": "U (hypotheses NoHollow of C10, RootCanon of C01)",
                                 "C07_projection_canonical": "U", "C07_reload_clean_world": "U (hypotheses on the world only: WorldOK, WorldCanon, RootHeader, NoHollow)",
                                 "C07_copy_keeps_unnamed_nested_refuted": "F-witness", "C07_insert_before_short_name_refuted": "F-witness",
                                 "C07_order_histories": "U (side condition single_version v ops, v <= LATEST)", "C07_order_histories_real": "F+U",
                                 "C07_world_check_sound": "U", "C07_api_built_reloads": "U (hypothesis: the boolean checker world_checkb answers true)",
                                 "C07_api_built_reloads_example": "F (non-vacuity: checker evaluates to true on a history-built world over the real tables)",
                                 "C07_ordered_short_first": "U", "C07_named_nonseq_real": "F",
                                 "C07_unique_name_too_long_refuted": "F-witness", "C07_unique_name_valid_when_short": "U",
                                 "C07_named_agree_real": "F (5080 datatypes x 21 versions, 4 shards)", "C07_listing_exact": "U (table fact named_agree_b as hypothesis)",
                                 "C07_listing_exact_real": "F+U (no table hypothesis; file version among the 21 AUTOSAR versions)",
                                 "C07_version_dependent_named_real": "F", "C07_listing_named_creatable": "U (table fact named_agree_b as hypothesis)",
                                 "C07_listing_exact_histories_real": "F+U (single-version histories, v among the 21 versions; no version / allocation hypothesis)",
                                 "C07_listing_named_histories_real": "F+U"}})


def replay(path):
    r = json.load(open(path))
    print(json.dumps(r, indent=1)[:3000])
    ctx = Ctx("C07", "quick", 1)
    avh = lib.harness_build(ctx)
    if not avh:
        return 1
    os.makedirs(CW, exist_ok=True)
    if not private_dump():
        print("no translator dump under work/dump: run ./check C07 once")
        return 1
    if r.get("kind") == "sweep" and r.get("plan_line") not in (None, "?"):
        one = os.path.join(CW, "replay_plan.txt")
        open(one, "w").write(r["plan_line"] + "\n")
        rc, out, _ = lib.run([avh, "range", "sweep", DUMP, one, "thorough", "0", "1"], cwd=WORK, timeout=900)
        dis = [l for l in out.split("\n") if l.startswith(("DISAGREE", "BUILDFAIL"))]
        print("\n".join(dis[:20]))
        if os.path.exists(AVM_RANGE):
            _, o1, _ = lib.run([avh, "range", "sweep", DUMP, one, "thorough", "0", "1"], cwd=WORK, timeout=900)
            _, o2, _ = lib.run([AVM_RANGE, DUMP, one, "thorough", "0", "1"], cwd=WORK, timeout=900)
            a = [l for l in o1.split("\n") if l.startswith("T ")]
            b = [l for l in o2.split("\n") if l.startswith("T ")]
            print("implementation:", a, "\nmodel:         ", b)
            if a != b:
                dis.append("model-vs-implementation digest differs")
        print("REPLAY %s" % ("FAILS (property violated on this input)" if dis else "passes"))
        return 1 if dis else 0
    if r.get("kind") == "history" and r.get("script"):
        rc, out = run_hist_script(avh, r["script"], "replay_script.txt")
        print(out[-3000:])
        bad = [l for l in out.split("\n") if l.startswith("HFAIL ") and classify_hfail(l) is None]
        exp = r.get("expect_after_fix")
        if exp:
            res = {int(m.group(1)): m.group(2) for m in re.finditer(r"RES step=(\d+) op=\S+ (R [^\n]*?) script=", out)}
            if not res.get(exp["step"], "?").startswith(exp["result"]):
                bad.append("step %d gives %s, expected %s" % (exp["step"], res.get(exp["step"]), exp["result"]))
            bad += [l for l in out.split("\n") if l.startswith("HFAIL ")]
        print("REPLAY %s" % ("FAILS (property violated on this input)" if bad else "passes / only recorded findings"))
        return 1 if bad else 0
    if r.get("kind") == "xver":
        want = " ".join(r["line"].split()[1:8])
        dt = re.search(r" dt=(\d+) ", r["line"]).group(1)
        rc, out, _ = lib.run([avh, "range", "xver", DUMP, "thorough", "0", "1", dt], cwd=CW, timeout=3000, env={"AVH_RANGE_SHOW": "1"})
        L = out.split("\n")
        hit = [k for k, l in enumerate(L) if l.startswith("XVER ") and want in l]
        for k in hit[:2]:
            print("\n".join(L[max(0, k - 1):k + 1])[:3000])
        bad = [L[k] for k in hit if classify_xver(L[k]) is None]
        print("REPLAY %s" % ("FAILS (property violated on this input)" if bad else "passes / only recorded findings"))
        return 1 if bad else 0
    if r.get("kind") == "xattach":
        want = " ".join(r["line"].split()[1:8])
        ver = re.search(r" v=(\d+) ", r["line"]).group(1)
        rc, out, _ = lib.run([avh, "range", "xattach", DUMP, "thorough", "0", "1", ver], cwd=CW, timeout=3000)
        hit = [l for l in out.split("\n") if l.startswith("XATTACH ") and want in l]
        print("\n".join(hit[:5]))
        bad = [l for l in hit if classify_xattach(l) is None]
        print("REPLAY %s" % ("FAILS (property violated on this input)" if bad else "passes / only recorded findings"))
        return 1 if bad else 0
    if r.get("kind") == "xcopy":
        rc, out, _ = lib.harness_run(avh, ["range", "xcopy", DUMP], timeout=900)
        print("\n".join([l for l in out.split("\n") if l.startswith(("XCOPY", "STAT"))][:10]))
        return 0
    return run("quick", 1)
